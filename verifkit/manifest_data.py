"""Per-property claims (source of MANIFEST.json; tools/gen_manifest.py renders it)."""
HOOK_COMMITS = []
ENGINES = [
    {"name": "lean-model", "path": "lean/", "serves_properties": ["C01", "C02", "C03", "C04", "C05", "C06", "C07", "C08", "C09", "C10", "C13", "C14", "C15", "C18", "C19", "C11", "C12", "C16", "C17", "C20"],
     "kind_free_text": "Lean 4 library Dbus (Spec, Model, Proofs, Props) + compiled line-protocol driver dbus-model"},
    {"name": "tabulator", "path": "gen/", "serves_properties": ["C01", "C02", "C03", "C04", "C05", "C06", "C07", "C08", "C09", "C10", "C13", "C14", "C15", "C18", "C19", "C11", "C12", "C16", "C17", "C20"],
     "kind_free_text": "C translation units that #include repo sources and print finite tables; rendered to lean/Dbus/Generated"},
    {"name": "h-lib", "path": "harness/lib/", "serves_properties": ["C01", "C02", "C03", "C04", "C05", "C06", "C07", "C08", "C09", "C10", "C13", "C14", "C15", "C18", "C19", "C11", "C12", "C16", "C17", "C20"],
     "kind_free_text": "in-process C harnesses linked against the ASan/UBSan build of the working tree"},
]
PENDING = "not implemented yet in this round (planned, see DESIGN.md §4/§7); no check is claimed"
NOT_APPLICABLE = {}
BUS_TIE = ("The bus model (lean/Dbus/Model/Bus: dispatch, driver methods, registry, match delivery, policy gate, pending replies, "
           "disconnect cleanup; method table regenerated from bus/driver.c) is tied to the real dbus-daemon (ASan/UBSan build of the working "
           "tree) by generated histories over raw sockets: after every operation every connection's received messages and every "
           "connection closed by the bus must equal what the model's step emits; disagreements are classified by a trace oracle "
           "written independently of the model. ")
CHECKS = {
    "C14": {
        "text": "Proved in Lean: (1) the contract of a request that runs out of memory (Dbus.Model.Bus.stepOom: the state is untouched and the caller gets "
                "exactly one error named NoMemory, from the bus, carrying its serial: oom_changes_nothing); (2) for the mechanism that is to deliver it for "
                "name ownership (lean/Dbus/Model/Bus/Oom.lean: bus_service_add_owner / remove_owner / swap_owner edit the queue eagerly and leave the "
                "cancel hooks of bus/services.c, which bus_transaction_cancel_and_free runs newest first) that each hook is a left inverse of its edit on "
                "every well-formed queue (undo_addOwner, undo_removePrimary, undo_swap) and that any sequence of hooked edits followed by cancel gives back "
                "exactly the queue it started from, order and flags included (cancel_restores, replace_then_cancel); the edits that register no hook do "
                "not (f22_witness, f23_witness: recorded findings). Tie, bus half: harness/lib/h_oom.c runs the real bus and its clients in one process "
                "(debug-pipe transport, as bus/dispatch.c's tests do) with libdbus' own allocation-failure counter armed on the bus side only; from prior "
                "states reached by generated histories (contended names with all flag combinations, match rules, outstanding calls, disconnects) the "
                "request under test (Hello, RequestName, ReleaseName, AddMatch, RemoveMatch, a routed call, signal or reply) is repeated with its 1st, "
                "2nd, ... last allocation failing, plus pairs of failures; every trial is a forked child that then shows what every client received, runs "
                "destructive probes (ListNames, ListQueuedOwners, probe signals against the rule pool, every client answering every outstanding call, "
                "take-over requests revealing the owners' flags), tears everything down and reports the allocations still outstanding (and LeakSanitizer). "
                "Each trial must equal the Lean bus model's full outcome (libdbus retried) or its out-of-memory outcome - nothing in between -, nothing may "
                "stay allocated, and after an out-of-memory outcome the repeated request must give the full outcome. Library half, in process with the "
                "same injector: header edits on generated messages (bytes unchanged by a failed edit, = model when let through), message construction / "
                "copy / marshalling, the match-rule parser and the configuration loader on generated inputs (NoMemory, nothing left allocated, result = "
                "model or loads with memory available). Found and repaired in /repo by this check: F20 (ListQueuedOwners leaked its list), F21 (the "
                "rollback of a removed or demoted owner asserted / corrupted the queue), F25 (a failed header edit left wrong padding); recorded: F22, "
                "F23, F24, F26, F27.",
        "note": "Partial: leak-freedom is an observation (outstanding-allocation count after full teardown, LeakSanitizer), not a theorem; the mechanism "
                "theorems cover the owner queue only (pending replies, match rules and pending activations are tied by the harness, not mirrored "
                "hook by hook); no failure is injected into dbus_message_iter_append_* (documented to leave the message unusable, F27) nor into "
                "activation; allocation failures inside the clients' own libdbus are outside (the counter is armed around the bus's loop only); "
                "'every pair' is sampled (a second failure j allocations after the first), not exhaustive.",
    },
    "C19": {
        "text": "Proved in Lean over the activation layer of the bus model (lean/Dbus/Model/Bus/Activation.lean: bus_activation_activate_service, "
                "the auto-start branch of bus_dispatch, StartServiceByName, bus_activation_service_created and "
                "bus_activation_send_pending_auto_activation_messages inside bus_registry_ensure/acquire_service, pending_activation_failed, the "
                "babysitter's finished callback with its same-Exec fan-out, the start timeout; built on the bus core's send primitives) for every "
                "state and event: a step starts at most one program, only for a name with no pending activation, which then has one, and no reachable "
                "state has two pending activations for one name, so between the start and the end of an activation no second program is started "
                "(program_started_at_most_once_per_activation, one_pending_activation_per_name, activateService_fresh); when the name is taken the held "
                "messages go out entry by entry in arrival order: one copy to the new owner first, then eavesdroppers, never a second copy to the owner, "
                "or, the gate refusing it now that the recipient is known, nothing to the owner and at most one error to the sender; the pending "
                "activation is gone afterwards, so nothing is delivered twice (held_messages_once_in_arrival_order, allowed_held_message_is_delivered, "
                "nothing_pending_nothing_sent); StartServiceByName callers get one SUCCESS reply each (start_callers_answered_once); on failure, exit "
                "or timeout every waiter still connected gets exactly one error carrying its serial unless its own policy refuses the bus's error "
                "(failure_each_waiter_one_error, connected_waiter_gets_the_error, timeout_fails_every_waiter), exit status 0 is ignored and a program "
                "nobody waits for dies silently (clean_exit_is_ignored, stale_program_exit_is_silent). The helper (lean/Dbus/Model/Helper.lean: "
                "run_launch_helper with the service-file parser of bus/desktop-file.c and the command-line splitter of dbus/dbus-shell.c) executes "
                "a program iff its argument is a valid bus name and the first loadable <name>.service in directory order declares exactly that name, "
                "an Exec line that splits into words and a User, and what it executes is that word list (helper_executes_iff, "
                "helper_refuses_invalid_name, helper_refuses_other_name). Tie: (1) generated histories against the real dbus-daemon (ASan/UBSan) "
                "with service directories whose Exec lines start a stub the harness controls through a FIFO (it reports its start, then ends with a "
                "chosen exit status or signal, or is left running), any client taking the name at any later point, senders leaving, "
                "StartServiceByName and auto-start mixed, names whose Exec does not parse or does not exist, two names sharing one command line, "
                "max_pending_service_starts = 2, policies that refuse at hold time and at delivery time; the start timeout is driven by a virtual "
                "clock (LD_PRELOAD shim shifting the daemon's gettimeofday/clock_gettime) so that it fires deterministically; compared per "
                "connection and in order: every delivery, every close, which programs were started (by the stub's log and the daemon's children) "
                "and which were killed; a trace oracle written from the property text (who waits for what, from the ops and the daemon's own "
                "replies) classifies disagreements. (2) _dbus_shell_parse_argv and bus_desktop_file_load in process on every string over nine "
                "shell-significant symbols up to length 4 (6 thorough) plus generated command lines and service files; (3) the real "
                "dbus-daemon-launch-helper-for-tests on generated service directories (declared names equal to, extending, prefixing or unrelated "
                "to the request; missing keys; odd quoting), the executed program recording its argument vector.",
        "note": "Partial: process creation, exit-status plumbing and real time are observed, not modelled (a started program is an output, what it "
                "does arrives as events; the clock is the harness's); systemd activation, the daemon's own use of the setuid helper "
                "(<servicehelper>), service files naming unique names and reloading of service directories are outside the model; the helper is "
                "run in its test build (no setuid checks, no user switch). Observation recorded while building the check: the babysitter process "
                "forked by dbus-spawn-unix.c keeps copies of all the daemon's descriptors, so a client the daemon drops while an activation is "
                "pending sees no end-of-file until the babysitter exits; the harness asks the bus instead of relying on EOF.",
    },
    "C15": {
        "text": "Proved in Lean over a ledger model of descriptors as tokens (lean/Dbus/Model/Bus/Fds.lean: what a sendmsg attaches goes to the connection's "
                "loader, each framed message takes the number its UNIX_FDS field announces from the front, the bus's copies are closed when the message is "
                "finalized — delivered, refused or undeliverable —, pending ones when the connection's loader is, control-data truncation closes everything "
                "and drops the sender, a connection that did not negotiate is read with plain read()), on top of the loader (C11) and the bus core, for every "
                "history of connects, writes with any bytes and any number of descriptors, closes and timeouts: the tokens received are, as a multiset, "
                "exactly those closed plus those pending, so none is leaked and — tokens being distinct — none closed twice "
                "(every_descriptor_closed_exactly_once_or_pending); what is pending belongs to a connected client and is within max_message_unix_fds "
                "(pending_only_for_live_connections_within_limit); once everyone has left everything is closed (baseline_once_everyone_has_left); after the "
                "pending-descriptor timeout nothing is pending (pending_timeout_leaves_nothing_pending); each message gets exactly the announced number, "
                "oldest first, the rest staying pending in order, the loader's count and the token list in step (message_gets_announced_descriptors_in_order); "
                "a message with descriptors is never queued for a connection that did not negotiate (addressed_recipient_must_have_negotiated, "
                "matched_recipient_must_have_negotiated); more than the loader has room for costs the sender its connection and closes all "
                "(overflow_closes_everything). " + BUS_TIE + "For C15 every descriptor is a distinct file recognised at the recipients by (device, inode); "
                "the tokens each delivered message carries are compared with the model's, and after every operation the daemon's /proc/<pid>/fd count minus "
                "its client sockets must equal the model's number of pending tokens (a leak on any path shows at once); scripted histories exercise "
                "pending_fd_timeout (500 ms), and a final scenario checks the descriptor table is back at its baseline after all clients have left.",
        "note": "Partial: recipients that read slowly (descriptors held by queued messages) and max_incoming_unix_fds are outside the model; the library-side "
                "API (dbus_message_iter_append_basic with 'h', dup on read) is not modelled, only what crosses the sockets and the bus.",
    },
    "C10": {
        "text": "Proved in Lean for the layer between the sockets and the bus core (lean/Dbus/Model/Bus/Raw.lean: per-connection loaders of C11 feeding "
                "Dbus.Model.Bus.step): whatever bytes clients write, in whatever chunks and interleaving, the core goes through an ordinary event history "
                "(hostile_history_is_event_history), so every theorem proved for all event histories holds under hostile input; only messages that passed the "
                "loader's validation (C01) reach it and everything else becomes at most one contentless `invalid` event per stream "
                "(only_validated_messages_reach_the_core, write_contributes_framed_messages_only, corrupt_stream_is_silenced); that event costs only its sender "
                "the connection, every other connection keeps its entry and name, and all the bus sends on the occasion is of its own making "
                "(invalid_input_drops_only_its_sender); unique names, owner queues and all limits stay well-formed after any such history "
                "(bookkeeping_survives_hostile_input); a connected client's Peer.Ping is answered at once in every state (bystander_ping_is_answered); and for the "
                "accounting of connections that have not completed their handshake (lean/Dbus/Model/Bus/Accept.lean, model of BusConnections.incomplete and "
                "bus_context_check_all_watches) at most `max` are incomplete, the bus listens exactly while there is room and nobody is left waiting while there "
                "is room, for every history of clients arriving, completing and going away (incomplete_connections_bounded_and_fair). " + BUS_TIE +
                "For C10 the histories interleave ordinary traffic with hostile clients (a fixed corpus of classics run first: every header field of every "
                "kind of message removed in turn, length words at limit values, truncations; then generated: mutations, bit flips, garbage, valid+invalid+valid "
                "in one write, floods of up to 600 messages, messages split across writes, abrupt closes, unauthenticated sockets misbehaving in 16 ways); every "
                "connection's Peer.Ping must be answered after every operation (10 s watchdog), the daemon (ASan/UBSan, assertions on) must stay alive, and a "
                "second differential run compares which unauthenticated clients are served or left waiting around max_incomplete_connections with the model, "
                "plus an auth_timeout expiry scenario.",
        "note": "Partial by nature: crashes, memory-safety, assertion failures, spinning and latency are observations of the sanitizer-built daemon under the "
                "generated histories, not theorems; 'bounded time' is a watchdog. F19 (pre-authentication assertion abort, found by C08's check) is a C10 "
                "violation as well and is repaired in /repo.",
    },
    "C08": {
        "text": "Proved in Lean over a model of the server side of dbus/dbus-auth.c (all three mechanisms, the per-state command handlers, line splitting, hex "
                "decoding, the failure counter, _dbus_auth_do_work's buffer limits) and of the identity gate in _dbus_transport_try_to_authenticate, for every "
                "environment (socket credentials, permitted mechanisms, user database, keyring, server owner) and every history of bytes arriving in any "
                "chunking, replies drained in any portions, and environment choices (cookie id, random challenge): whenever the conversation is past OK the "
                "recorded mechanism is permitted and the authorized identity is exactly what it establishes — EXTERNAL the socket's uid/pid/groups/label, "
                "DBUS_COOKIE_SHA1 the server owner's uid after the SHA-1 of challenge:client-challenge:cookie, ANONYMOUS no user "
                "(established_in_every_reachable_state, external_identity_is_the_sockets, cookie_needs_the_correct_response, cookie_identity_is_the_owners, "
                "anonymous_only_where_permitted); before OK nothing is authorized and CANCEL/ERROR forget it (nothing_authorized_before_ok, "
                "cancel_forgets_identity); Authenticated is entered only by BEGIN in WaitingForBegin and an identity without a user passes the transport's gate "
                "only with allow_anonymous (authenticated_only_through_begin, anonymous_identity_gate); every reply and successor state is one the specification's "
                "state machine (Dbus.Spec.Auth.specAllows, written from the specification) permits (conforms_to_specification); at most six REJECTED are ever "
                "sent (failures_bounded, gives_up_after_six, rejected_counts_failures), final states are final, at most 16 KiB of handshake input is buffered "
                "(buffers_bounded, overflow_gives_up), and the bytes handed on as message data are exactly those after the BEGIN line, in whatever chunks the "
                "stream arrived (nothing_before_begin_is_message_data). The model is tied to the code by (1) an adaptive client driving a real server-side DBusAuth "
                "in-process (harness/lib/h_auth.c includes dbus-auth.c) with the whole internal state compared after every operation, plus SHA-1 (dbus-sha.c vs a "
                "FIPS 180 transcription in Lean), _dbus_is_a_number and hex decoding at unit level; (2) real sockets against dbus-daemon under five auth "
                "configurations and three peer uids: replies, acceptance by the gate, the uid the bus then reports, bytes after BEGIN. A trace oracle written "
                "independently of the model states the property on the implementation's own trace. F19 (assertion abort on a blank followed by CR/LF in a "
                "handshake line) was found by this check and repaired in /repo.",
        "note": "Partial: kernel credentials, the user database and the keyring file are parameters of the model (the keyring code runs in the harness, only its "
                "result enters the model); SHA-1 is specified by a Lean transcription of FIPS 180, not proved about; OOM paths are C14; auth_timeout and the "
                "limit on incomplete connections are C10.",
    },
    "C03": {
        "text": "Proved in Lean for every bus state, sender and message (any header a client can put on the wire): every message the bus "
                "hands to any connection while processing it has header fields 1..9 only and carries as sender org.freedesktop.DBus or the "
                "sending connection's unique name (delivered_sender_and_fields; hypothesis discharged for everything the loader accepts: "
                "loader_guarantees_hypothesis), with the one recorded exception F14 stated in the theorem (f14_witness). Unique names: in every "
                "reachable state (induction over all histories of connects, messages, invalid input and disconnects) no name was ever handed "
                "out twice, live connections carry distinct logged ':' names (unique_names, names_injective via the counters' lexicographic "
                "order and injectivity of the decimal rendering), a second Hello is refused, and a name once given is never changed "
                "(name_is_for_life). " + BUS_TIE,
        "note": "The counters are unbounded naturals in the model; the C code's signed-int wrap after 2^31 names is not modelled.",
    },
    "C05": {
        "text": "Proved in Lean for every bus state, sender and message: a message naming a destination whose primary owner is a, and which "
                "the policy gate admits, yields one copy to a, first, then at most one copy to each connection holding an eavesdropping "
                "match rule that matches it, a not among them (unicast_reaches_owner_once, recipient_of_unicast_eavesdrops, "
                "addressed_not_recipient); with no owner nothing is delivered and the route ends in an error (no_owner_no_delivery), likewise "
                "when the gate refuses (refused_no_delivery); the error reply is at most one, from the bus, carrying the message's serial "
                "(undeliverable_one_error); the forwarded copy keeps body, signature, type, flags, serial and every defined header field "
                "but SENDER (forwarded_fields_intact, forwarded_rest_intact); outputs extend in processing order. " + BUS_TIE,
        "note": "Partial: 'recipients that read slowly' (socket back-pressure, max_outgoing_bytes) and auto-start holding (C19) are outside this model; the daemon is single-threaded, so 'the moment the bus processes it' is a step of the model.",
    },
    "C13": {
        "text": "Proved in Lean as an invariant of every reachable state (generic leaf induction over step: every state-changing "
                "primitive of the model keeps it, under any configured limit values): match rules per connection <= max_match_rules, "
                "owner-queue memberships per connection (unique name included) <= max(1, max_names), outstanding calls per caller <= "
                "max_replies, registered connections <= max_completed, per user <= max_connections_per_user (limits_never_exceeded), "
                "the limits themselves are constant (limits_constant); the request at the limit is refused and changes nothing "
                "(names_limit_refuses/_error, rules_limit_refuses, connections_limit_refuses, per_user_limit_refuses, "
                "replies_limit_refuses), below the limit it proceeds (below_*), and an over-long message costs only its sender the "
                "connection (oversized_only_sender_dropped with C01.message_size_limit). " + BUS_TIE +
                "Five limit profiles with small limits (rules 3, names 3, completed 3 / per user 2 with connections of three uids, replies 2, "
                "max_message_size 1024 with messages of exactly limit-9..limit+64 bytes and shuffled header fields).",
        "note": "max_incomplete_connections / auth timeouts (not-yet-authenticated connections) are outside the model: they concern the listener, not step; recorded as partial.",
    },
    "C06": {
        "text": "The documented evaluation is written out in Lean (Props/C06.lean, namespace Documented, from doc/dbus-daemon.1.xml.in: by-value "
                "attribute matches, the interface warning, eavesdrop and requested_reply modifiers, send_broadcast, destination/sender = "
                "any queued owner, prefixes by dot-separated words, fd-count range, last matching rule decides, nothing allowed by default). "
                "Proved for every rule, rule list, message view, reply state and peer: the code's rule applicability and decisions for send, "
                "receive and own equal the documented ones (send/receive/own_rule_matches_as_documented, *_decision_as_documented) under "
                "the explicit hypothesis that the message carries the fields named by path/member/error attributes; the other case is the "
                "recorded departure F16 (f16_witness, reproduced on the daemon each run). Contexts are concatenated default, groups, user, "
                "console, mandatory; a later context wins whenever one of its rules matches (later_context_wins, lastVerdict_append); the gate "
                "admits a message between registered connections iff the sender's send rules and the recipient's receive rules both allow it, "
                "refuses only with AccessDenied, a denied message reaches no one and a denied RequestName changes nothing. " + BUS_TIE +
                "Configurations are generated (2-12 random rules over all attributes in default/mandatory/user/group contexts, connections of "
                "three uids, plus a destination-rule profile with queued owners); F17 (policy optimizer dropping rules) was found by this "
                "check and repaired in /repo.",
        "note": "The harness appends four mandatory allow rules it needs for its own barriers (Peer/NameHasOwner/Hello calls to the bus, receiving from the bus); at_console contexts and SELinux/AppArmor mediation are not exercised. config-parser attribute handling is modelled (ruleOfAttrs) and compared, not proved against the DTD.",
    },
    "C18": {
        "text": "In the model the copies made for monitors (bus_transaction_capture) are collected in a list of their own (Tx.mon) that "
                "nothing reads; ordinary deliveries (Tx.out) and the state are computed without it. Proved in Lean: a capture appends "
                "exactly one copy for each capture target and touches nothing else (capture_exact), the targets are exactly the "
                "connections holding a matching monitor rule except the addressed recipient, none twice (target_iff, targets_nodup); "
                "every routed message - deliverable, refused or ownerless unicast, broadcast - is captured before the bus decides "
                "anything about it (routed_message_is_captured), so is everything the bus itself sends and every NameOwnerChanged "
                "(driver_message_is_captured, owner_changed_is_captured) and every call to the driver, with the sender the shared "
                "message object ends up with (driver_call_is_captured); monitor rules always eavesdrop; a monitor is never a match "
                "recipient and is dropped when a message of its reaches bus_dispatch (monitor_sending_is_dropped), the exception "
                "being the recorded finding F18 (f18_peer_filter_answers_monitors). " + BUS_TIE +
                "Histories with several monitors (empty and selective filters, becoming monitors while owning or queued for names and "
                "with calls outstanding), also under a policy with denials; non-interference is additionally tested on the daemon "
                "itself: each history is re-run with the monitor disconnected instead and every other connection must receive the same.",
        "note": "Partial: 'what every other client observes is the same as if the monitor were absent' is structural in the model (mon is write-only) and tested differentially on the daemon, not stated as a Lean theorem; in the step in which a connection turns into a monitor its own stream is compared as a multiset (the model keeps the two lists apart).",
    },
    "C09": {
        "text": "Proved in Lean for every state and message: under a policy that lets replies out only when requested (stated as a "
                "predicate on the sender's rule list) a method return or error from s to r with no recorded slot (r called s, that "
                "serial, unanswered) is refused as AccessDenied (reply_without_slot_refused); a reply that finds its slot uses it up "
                "whether or not it then passes (reply_consumes_slot), so with the duplicate-free pending list of every reachable state "
                "(pending_never_duplicated, leaf induction) a second reply finds none (second_reply_finds_no_slot); a call flagged "
                "NO_REPLY_EXPECTED opens no slot, a call reusing an outstanding serial is refused; when the callee vanishes or the reply "
                "timeout elapses every waiting caller gets at most one NoReply per slot, from the bus, and the slots go "
                "(callee_gone_one_noreply_each, timeout_one_noreply_each, noReply_shape). " + BUS_TIE +
                "Run under a requested-replies-only policy (system bus default) with forged, duplicate, wrong-serial, third-party and "
                "serial-0 replies, max_replies 2, and reply_timeout 300 ms with a real sleep.",
        "note": "Partial: 'exactly one NoReply' is 'at most one, exactly one unless the caller's own receive policy refuses the bus's error'; the max_outgoing_bytes refusal (recipient not reading) is outside the model (seeded change C09-2 is not detected).",
    },
    "C04": {
        "text": "The specification's RequestName/ReleaseName rules are written out in Lean (Spec/Names.lean, from doc/dbus-specification.xml). "
                "Proved for every queue satisfying the queue invariant, every caller and every flag word (undefined bits included): the queue "
                "bus/services.c computes equals the specification's outside one recorded case (requestName_queue; F15: REPLACE_EXISTING that "
                "cannot replace jumps the queue, f15_witness, same primary owner: queue_jump_same_primary), reply codes and the "
                "NameLost/NameOwnerChanged/NameAcquired signals (addressee and order) equal the specification's in every case, likewise for "
                "ReleaseName and disconnection. The queue invariant holds in every reachable state of the whole bus model "
                "(queues_well_formed, by the generic leaf induction over step), reserved names can be neither requested nor released, a refused "
                "request changes nothing, the reply follows the signals, and the query methods report the queue. " + BUS_TIE,
        "note": "F15 is a known finding (see known-findings.json); the trace oracle re-implements the specification in Python and follows the daemon's order after a recorded jump.",
    },
    "C07": {
        "text": "Proved in Lean over the model of bus/signals.c (tokenizer, bus_match_rule_parse, match_rule_matches, match_rule_equal): a quoted "
                "value round-trips through the tokenizer, unbalanced quotes / unknown keys / duplicate keys / over-long rules are rejected, and each "
                "matching clause means what the specification says for every message (path_namespace_semantics, arg_plain/namespace/path_semantics, "
                "unicast_needs_eavesdrop). The model is tied to the C parser and matcher by differential runs over generated rule texts (valid, "
                "mutated, quoted/escaped, 0..64 args) and generated messages, under ASan/UBSan; F5 (argNpath over-read on empty string) and F13 "
                "(match_rule_equal ignoring path for path_namespace rules) were found by this check and repaired in /repo."
                " At bus level (Dbus.Props.C07Bus) it is proved for every bus state, sender and signal that a connection receives a copy of a "
                "destination-less message iff it is connected, is not a monitor, holds at least one rule matching it and the policy gate admits "
                "the pair, and then exactly one copy (recipient_iff, recipients_nodup, broadcast_reaches_exactly_the_matching); a disconnected "
                "connection receives nothing (disconnected_gets_nothing). " + BUS_TIE +
                "The C07 histories use rule pools over every key incl. sender/destination naming live, past, future and textually extended "
                "unique names, with an oracle (own parser + matcher in Python, independent of the Lean model) for who must receive each broadcast.",
        "note": "Removal of the most recent equal rule and the cleanup of rules at disconnect (incl. the recorded GC quirk) are compared against the daemon on every history, not stated as separate theorems.",
    },
    "C17": {
        "text": "Proved in Lean over every history of sends, peer messages (replies, duplicates, stray reply serials), reads, single dispatch steps, "
                "timeout firings, cancels, blocking waits and a peer close at any point: no call is notified twice and an uncompleted call is not "
                "notified (completes_at_most_once, from the invariant inv_run), a call cancelled before completion stays uncompleted and un-notified "
                "(cancelled_never_notified), dispatch pairs a message only with the attached call of that serial (reply_matches_serial), serials are "
                "non-zero for ever and pairwise distinct until the 32-bit counter wraps (serial_nonzero, serials_distinct_before_wrap, by a closed "
                "form of the counter, not enumeration). 'Exactly once' holds for completion by reply, timeout or blocking wait and FAILS on the "
                "connection-drop path (known finding F11, proved on a witness: f11_witness). The model is tied to dbus-connection.c / "
                "dbus-pending-call.c by scripted single-thread histories over a real socket pair with timeouts fired through the timeout callbacks.",
        "note": "Partial: lock-level interleavings of several threads are outside the model (it assumes the atomicity the connection lock gives); the serial wrap is not reachable by the K-tie.",
    },
    "C02": {
        "text": "Proved in Lean for every well-formed abstract message (any type, flags, header fields incl. unknown ones, any nested body): its "
                "serialisation encodeMsg is accepted by the loader model and parses back to the same message (marshal_roundtrip), whatever parses "
                "re-serialises to the same bytes (remarshal_identical), the image in the other byte order parses to the same values "
                "(byteswap_values, via endian-independence of lengths and well-formedness), converting back is the identity, sizes agree. "
                "The construction API (dbus_message_new, setters, append_basic, open/close container, append_fixed_array, copy, marshal) is tied to "
                "encodeMsg by byte-identical differential runs of generated well-typed construction programs, plus parse-reserialise identity and "
                "conversion of the model-made big-endian image back to native order inside the library.",
        "note": "The incremental writer (back-patched array lengths) is compared, not modelled; dbus_message_append_args is covered through append_basic/fixed_array; UNIX_FD values are not built.",
    },
    "C12": {
        "text": "Proved in Lean over the abstract field list, for all lists and values: a set field reads back (set_reads_back), all other fields are "
                "untouched by set/delete/strip-unknown (set_frame, delete_frame, removeUnknown_frame), delete removes, stripping leaves only known "
                "codes, flags/type/body/byte order untouched (edit_leaves_rest), the serialised header always ends 8-aligned with zero padding "
                "(padding_exact, encodeHeader), and whenever the edited message is well-formed its serialisation loads back as exactly that message "
                "(edit_roundtrip, from the message-level completeness theorem). The library's in-place editing of wire messages (both byte orders, any "
                "field order, unknown fields interleaved, values 0..40 bytes) is tied to encodeMsg of the edited list by byte-identical runs after every edit.",
        "note": "Not proved: that well-formedness is preserved by an edit in general (array-length limits depend on offsets); the K-tie reloads nothing, it compares bytes.",
    },
    "C01": {
        "text": "Proved in Lean for all byte strings, both byte orders, unbounded sizes: the value/body decoder (model of validate_body_helper + "
                "type readers) accepts exactly the encodings of well-formed values (decode_accepts_only_encodings: canonicity — padding zero, "
                "booleans 0/1, strings valid, array <= 2^26, nesting <= 64; decode_encode: completeness; decodeFields_iff), with the fuel bound "
                "proved and prefix stability in both directions. Totality is by construction (Lean accepted the definitions). The model is tied to "
                "dbus_message_demarshal + the public accessor/iterator API by a three-way differential run (independent Python marshaller, C, Lean) over "
                "valid messages and every single-site corruption, truncation, trailing bytes, field-level corruptions, boundary builders and garbage, "
                "under ASan/UBSan with assertions. Message-level glue (header field checks, mandatory fields, local names) is modelled and compared; "
                "and proved: demarshal_accepts_iff_spec (loadOne = ok m n  <->  WFMsg m and the buffer starts with encodeMsg m, n its length), "
                "accessors_eq_independent_decoding, message_size_limit.",
        "note": "F2, F3, F4 were found by this check and repaired in /repo (fix: commits). Limits 2^26/2^27 themselves are theorem + tables, not run.",
    },
    "C11": {
        "text": "Proved in Lean for every stream, every partition into reads and every maximum message size: the loader's observable (messages, "
                "corrupt flag, index of first invalid message) after feeding the chunks equals that of feeding the concatenation "
                "(chunking_irrelevant), by way of framing_final (a complete or corrupt front message is framed the same whatever follows, although "
                "the header is validated against the whole buffer), nothing_after_corruption and messages_monotone. Tied to DBusMessageLoader by "
                "differential runs over all single cut points, byte-at-a-time, block and random partitions of generated streams.",
    },
    "C20": {
        "text": "Proved in Lean for every history of register / register-fallback / unregister: the sorted trie with intermediate-node "
                "creation and leaf pruning refines the specification's registration map (tree_refines_set: well-formedness kept, abstraction "
                "commutes, occupied registration fails without change), handlers are tried in exactly the specified order "
                "(dispatch_order_eq_spec), invocation stops at the first taker, and the UnknownMethod/UnknownObject choice is characterised "
                "structurally with the stale/initial invoke_as_fallback flag (known finding K3) named explicitly. The model is tied to "
                "dbus-object-tree.c + dbus_connection_dispatch by scripted differential histories over a real connection pair "
                "(handler invocation order, error name, child listing, user data).",
        "note": "Not proved: that a trie node exists exactly for prefixes of registrations (no-dead-leaf invariant) — compared by the K-tie through list/data operations.",
    },
    "C16": {
        "text": "Proved in Lean for all byte strings: each validator model accepts exactly the specification grammar "
                "(validateMember/Interface/ErrorName/Path/Utf8/BusNamespace_iff; validateBusName_iff and validateSignature_iff with the two "
                "recorded laxities K1/K2 as explicit disjuncts; executable strict-spec oracles proved equal to the Spec predicates). "
                "The character-class, UTF-8 lead-byte, type-code tables and limits are regenerated from the compiled source on every run and "
                "proved equal to the Spec definitions over the whole domain. The scanning models are tied to the C functions by exhaustive "
                "differential enumeration (millions of strings per run incl. embedded NUL, public and internal entry points).",
        "note": "The signature model is a recursive-descent parser, not a mirror of the C automaton; its equivalence with the C code rests on the K-tie.",
    },
}


# ---- round 5: additions to the claims above (appended to `text`) and replacements of notes that no longer hold
ADD_TEXT = {
    "C09": " Round 5: callees and callers that do not read (queue over max_outgoing_bytes: a refused call opens no slot, full_queue_opens_no_slot); and, over the clock layer "
           "(lean/Dbus/Model/Bus/Timed.lean: a deadline is the stamp taken when the slot is recorded plus reply_timeout, nothing moves it), a finite reply_timeout of 800 s against a "
           "virtual clock (LD_PRELOAD shim) that the history advances in steps of 450 s and 700 s: exactly the slots older than the timeout expire, each with one NoReply, younger ones "
           "survive (expire_due_one_noreply_each, reply_deadline_is_fixed, young_call_survives_reachable, no_reply_timeout_nothing_expires; timedInv_run: in every state reachable with "
           "activation and time the stamps are in step with the duplicate-free pending list). The profile that slept through a real 300 ms timeout was removed (false alarms under load).",
    "C05": " Round 5: an owner whose outgoing queue is full gets nothing and the sender one error (stalled_owner_gets_nothing). Schedules: in the frozen-batches profile the daemon is held "
           "(SIGSTOP) while clients write and hang up, so that it finds calls and the hang-up of their addressee in one turn of its main loop; the model runs such a batch connection by "
           "connection and the check accepts the observations if some order of the connections explains them (depth-first search, at most 120 model runs per history); the trace oracle has "
           "a clause for batches (delivered once to a connection entitled to the name, or exactly one error).",
    "C19": " Round 5, deadlines: over the clock layer (lean/Dbus/Model/Bus/Timed.lean) the start timeout belongs to the activation - fixed when the program is started, not moved by senders "
           "that join later (joining_keeps_the_start_deadline, start_deadline_is_fixed, one_timeout_per_due_activation); histories advance the daemon's virtual clock in steps of 450 s and "
           "700 s against a start timeout of 1000 s, so that an activation joined at 700 s must still time out at 1000 s. A disagreement of the command-line splitter with the model is reported "
           "with a failing input when POSIX shell quoting (Python's shlex, an independent reading) sides with the model.",
    "C13": " Round 5: the invariant is also proved for every state reachable with service activation and time (limits_never_exceeded_with_activation_and_time: the leaf induction lifted to the "
           "activation and clock layers, Proofs/Bus/GenericA.lean).",
    "C04": " Round 5: queue well-formedness is also proved for every state reachable with service activation and time (queues_well_formed_with_activation_and_time).",
    "C14": " Round 5: the library half also sweeps every basic type including UNIX_FD through every failing allocation of dbus_message_iter_append_basic on a freshly allocated message and demands that "
           "after the message is released and dbus_shutdown() has emptied the message cache no heap block and no descriptor is left.",
    "C15": " Round 5: descriptor-carrying messages whose header alone is larger than a socket buffer (300 kB - 1.7 MB object paths), which the bus has to write in several pieces: the descriptors "
           "belong to the first piece only.",
    "C10": " Round 5: a flood scenario (two authenticated clients stream signals without pause while auth_timeout must expire max_incomplete_connections silent sockets and a waiting client must then "
           "be served: the bus's timers have to run however busy its sockets are); after raw writes the harness waits until the kernel reports that the daemon has read them (TIOCOUTQ).",
    "C08": " Round 5: near misses of the right DBUS_COOKIE_SHA1 digest (proper prefixes from 1 to 39 digits, extensions, one digit changed, other case), and the trace oracle checks that every OK of "
           "that mechanism answers a response carrying exactly the SHA-1 of challenge:client-challenge:cookie.",
    "C17": " Round 5: messages that are not replies but carry an outstanding call's serial in REPLY_SERIAL (libdbus pairs by that field alone; the call must still complete exactly once).",
    "C03": " Round 5: the header-hygiene oracle also runs over histories with monitors (a message is captured whether or not it is relayed) and over activation histories (messages held for a service "
           "being started and delivered later).",
    "C06": " Round 5: 80 deterministic configurations for rules naming a header field (send/receive x interface/member/path/error x allow-after-deny/deny-after-allow x message types) against "
           "messages with, without and with another value of that field.",
}
ADD_TEXT["C18"] = (" Round 5: a first part of 'what every other client observes is the same as if the monitor were absent' is now a theorem: with every monitor turned back into "
                   "an idle ordinary connection (shade) the policy gate gives the same verdicts, the same connections have a matching rule, and routing a message or sending a driver "
                   "message produces the same ordinary deliveries, the same error and the same state (gate_ignores_monitors, others_observe_the_same_partial, "
                   "driver_sends_the_same_partial; the side condition - monitors hold no ordinary rules - is what BecomeMonitor establishes, new_monitor_has_no_rules). Monitors "
                   "whose filter names unique names (destination=':1.N', sender=':1.N') are checked by the trace oracle too, including after that peer has gone.")
ADD_TEXT["C06"] += (" The configuration can be reloaded in the middle of a history (Ev.reload in the model: bus_connections_reload_policy gives every registered connection a freshly "
                    "built policy; SIGHUP with a rewritten file on the daemon): reloaded_policy_governs, own_denied_after_reload (a RequestName the new rules deny changes nothing, also "
                    "for a connection that already owns the name or waits for it).")
ADD_TEXT["C14"] += (" The pending-reply list's two hooked edits (bus_connections_expect_reply / cancel_pending_reply, bus_connections_check_reply / cancel_check_pending_reply, "
                    "which puts the link back at the head) are mirrored too: a cancelled transaction restores the list up to order (pending_cancel_restores, "
                    "cancelled_transaction_restores_pending).")
ADD_TEXT["C20"] = (" Round 5: 'the child listing reflects exactly the registered tree' is now a theorem over all histories: no reachable trie has a subtree without a registration in it "
                   "(no_dead_branch: unregistration prunes what registration created, Proofs/ObjectTreeLive.lean), hence a name is listed below p iff some registration of the "
                   "specification's map lies at p/name or below (children_eq_spec).")
ADD_TEXT["C16"] = (" Round 5: one odd byte (NUL, stray continuation, 0xff, lead byte) at every position of otherwise plain texts of every length up to 48 and around 64/128/256, alone and "
                   "behind a two- or three-byte character, and every UTF-8 verdict is re-asked with the text at every offset 1..7 of its buffer (a validator that looks at a word at a "
                   "time must still see every byte).")
ADD_TEXT["C11"] = (" Round 5: streams with several descriptor-carrying messages (each in a write of its own, as the protocol demands), one of them split so that its head is read alone "
                   "while its tail and the next descriptor-carrying message arrive together.")
ADD_TEXT["C13"] += " The trace oracle keeps a ledger of outstanding calls per caller (a call delivered although its caller already has max_replies_per_connection calls outstanding, to whomever, is a violation)."
ADD_TEXT["C18"] += (" Round 7: 'a monitor can affect nothing' is now a theorem over all histories of the core bus: others_observe_the_same - from every good state "
                    "(reachable_states_are_good: the invariant of Proofs/Bus/MonInv.lean holds in every reachable state), hence from the empty bus "
                    "(others_observe_the_same_from_start), the run sends its clients, step by step, exactly what the run without monitors sends (every monitor an idle registered "
                    "connection without rules; a monitor that speaks is a connection dropped for sending something unacceptable), and the states agree up to shading; "
                    "step_ignores_monitors is the one-step version, for every event (messages to the driver with all its methods including BecomeMonitor itself, peer traffic, connect, "
                    "disconnect, invalid bytes, expiry, stall, reload). reachable_monitor_is_inert: in every reachable state a monitor holds no match rule, stands in no queue and is "
                    "neither caller nor callee of a pending reply. Monitors together with service activation (outside the history theorem) are run model-against-daemon: "
                    "three scripted scenarios (a caller whose call is held for a service turns into a monitor before the service arrives) and generated activation histories "
                    "with BecomeMonitor calls.")
ADD_TEXT["C04"] += (" Round 7: in every reachable state whoever stands in a queue is a connected connection and no monitor (queue_members_are_connected), a connection's services_owned list "
                   "covers every queue it stands in (owned_names_cover_queues) - so the disconnect path and BecomeMonitor, which walk that list, really take it out of every queue "
                   "(gone_connection_in_no_queue).")
ADD_TEXT["C09"] += (" Round 7: in every reachable state of the core bus each slot is between two connected clients, neither a monitor (slots_between_connected_clients) - a slot ends "
                    "by the callee's reply, by expiry or by one of the two disconnecting, never by being forgotten.")
ADD_TEXT["C05"] += (" Round 7: the owner a unicast message is handed to is a connected client in every reachable state (primary_owner_is_connected).")
ADD_TEXT["C17"] += (" Round 7: sends that fail after the message was given its serial, and the application's retry with the very same message, are in model, harness and "
                    "generator (sendFail, retry); registered_serials_distinct: until the 32-bit counter wraps, and as long as the application leaves serials to the connection, "
                    "the calls a connection has registered carry pairwise distinct serials whatever came in between - pairing a reply by serial never has two candidates.")
ADD_TEXT["C10"] += (" Round 7: five scenarios of clients that do something odd to their socket and fall silent (half-closed either way, before authentication, in the middle of a "
                    "message, stalled with a backlog): the daemon's CPU time over a quiet second must be about zero (F29, the bus spinning after a client shut down its reading "
                    "side, was found this way and repaired in /repo); subscribers that stop reading: max_outgoing_bytes holds for broadcast copies too (scenarios, generated "
                    "profile, oracle clause).")
ADD_TEXT["C07"] = ADD_TEXT.get("C07", "") + (" Round 7: sender='<well-known name>' and destination='<well-known name>' mean the name's present owner (sender_rule_needs_the_owner, "
                    "waiter_does_not_match_sender_rule, destination_rule_needs_the_owner); scenarios with a second connection waiting in the name's queue and broadcasting.")
ADD_TEXT["C12"] = ADD_TEXT.get("C12", "") + (" Round 7: dbus_message_set_serial keeps a valid message valid (setSerial_keeps_valid, setSerial_roundtrip; field edits: see round 8); the check sweeps allocation failures over its own edits (a failed edit leaves the bytes as they were).")
ADD_TEXT["C02"] = ADD_TEXT.get("C02", "") + (" Round 7: the big-endian image of every built message is also parsed and serialised again without anything reading it in between (reading converts a message "
                   "to native order and would hide a byte-order slip on the sending path).")
ADD_TEXT["C05"] = ADD_TEXT.get("C05", "") + (" A message is answered by the bus at most once: bus-made errors are counted per sender and serial over the whole trace.")
ADD_TEXT["C15"] = ADD_TEXT.get("C15", "") + (" Round 7: connections that keep attaching more descriptors than they announce (scenarios); the oracle bounds what the daemon holds open for its clients.")
ADD_TEXT["C20"] = ADD_TEXT.get("C20", "") + (" Round 7: path elements with digit runs (2, 10, a9, a10: orders that are not byte order); a harness that hangs is a reported result with the history up to it.")
NEW_NOTE = {
    "C09": "Partial: 'exactly one NoReply' is 'at most one, exactly one unless the caller's own receive policy refuses the bus's error'; when a recipient's queue is full is an input of the "
           "environment (stall events), not computed from message sizes; timer precision is not modelled (the virtual clock only ever stands at least 100 s away from any deadline).",
    "C18": "Non-interference is proved for every history of the core bus model (step/run); the activation and clock layers (stepA/stepT) are not under the history theorem (a message held "
           "for a service being started may be delivered after its sender became a monitor - there the per-dispatch theorems and the differential test on the daemon stand). In the "
           "step in which a connection turns into a monitor its own stream is compared as a multiset (the model keeps the two lists apart). F18 (the peer filter answers monitors) is a known finding.",
    "C05": "Partial: when a queue is full is an input (stall events); which of several connections found ready in one turn of the main loop is served first is not predicted (any order is "
           "accepted); auto-start holding is C19's; the daemon is single-threaded, so 'the moment the bus processes it' is a step of the model.",
}
# ---- round 8 ----
ADD_TEXT["C07"] += (" Round 8: 'AddMatch accepts exactly the rule strings of the specified grammar and quoting' is a theorem: Spec/MatchGrammar.lean generates rule texts with their "
                    "meaning (items key=value separated by commas, blanks around keys, values made of plain characters, '...' pieces, \\' and literal backslashes) independently of the "
                    "tokenizer, and tokenize_iff_bounded_grammar proves that tokenize_rule succeeds with pairs kvs iff the text is such a rule text with these pairs, for every byte string "
                    "(tokenize_complete / tokenize_sound for up to 16 items - beyond that the tokenizer stops reading, which is in the statement as RuleTextN.cut and outside the property's "
                    "quantifier, 'up to the per-rule key limits'); parse_accepts_iff lifts it to AddMatch's verdict. RemoveMatch: remove_removes_one (exactly one rule goes, one equal to the "
                    "argument, the most recently added such, the others stay in order), remove_fails_iff (MatchRuleNotFound iff no equal rule), remove_after_add.")
NEW_NOTE["C07"] = ("Trusted base: Lean 4.33 kernel and the axioms printed by #print axioms for each listed theorem (subset of propext, Classical.choice, Quot.sound; no native_decide/bv_decide, "
                   "no sorry/admit/axiom); the Spec layer (lean/Dbus/Spec, here Spec/MatchGrammar.lean: the reading of the specification's rule syntax) as the meaning of 'right'; T-tie "
                   "gen/tab_*.c+render.py+gcc; K-tie harness, generators and the compiled Lean driver. Modelled, not verified: every line of C; heap safety/termination are sanitizer "
                   "observations on the generated inputs. The cleanup of rules at disconnect (incl. the recorded GC quirk) is compared against the daemon on every history; the per-key value "
                   "checks are the C16 predicates (proved equal to the grammars there); strtoul's reading of the N in argN is modelled, not specified.")
ADD_TEXT["C12"] += (" Round 8: 'leaves a message whose serialised form is well-formed, fully valid as long as the mandatory fields are still present' is now a theorem for every edit and every "
                    "sequence of edits (edit_keeps_valid, edits_keep_valid, edits_roundtrip over set_keeps_valid, delete_keeps_valid, removeUnknown_keeps_valid, setSerial_keeps_valid): under "
                    "the API's own preconditions (EditOK: the new field is one the setter admits - known code other than SIGNATURE/UNIX_FDS, prescribed type, valid contents -, the serial is not "
                    "0, a deletion leaves the mandatory fields, and after an edit that lengthens a field the message is still within the size limits) the edited message is WFMsg, hence "
                    "serialises to bytes the loader accepts and reads back as exactly the edited message. Proofs/EditWF.lean carries the argument: encoded lengths and well-formedness depend "
                    "on the offset only modulo 8 (encode_length_mod8, wfVal_mod8), a header field is a self-aligning struct and so well-formed wherever it stands (wfVal_fieldArray_iff), "
                    "the loader's per-field loop is a property of each field plus distinct known codes (checkFields_iff), and removing fields never lengthens the field array "
                    "(fieldsLen_sublist) - so delete and strip-unknown need no size hypothesis.")
ADD_TEXT["C19"] = ADD_TEXT.get("C19", "") + (" Round 8: a bus configured with a <servicehelper> is in the model as far as the daemon's own decision goes (SvcFile.refuse: a service file "
                    "without User= is refused with Spawn.FileInvalid before anything is parsed or started, and nothing stays pending); generated activation histories run on such a bus "
                    "(profile servicehelper-without-user).")
ADD_TEXT["C13"] = ADD_TEXT.get("C13", "") + (" Round 8: max_incomplete_connections over histories (clients arriving, saying Hello, leaving around limits 1, 2, 3; three scripted: a slot "
                    "freed by a Hello or by a departure is usable again) against Model/Bus/Accept.lean in this check too; such histories replay for real.")
ADD_TEXT["C03"] = ADD_TEXT.get("C03", "") + (" Round 8: profile unique-names-requested (connections ask for and release each other's live unique names, holders leave, others query) with "
                    "an oracle clause of its own: a unique name is never granted, promised, acquired or lost.")
ADD_TEXT["C18"] = ADD_TEXT.get("C18", "") + (" Round 8: scripted profile queued-then-monitor (a waiter in a name's queue becomes a monitor, then the owner gives the name up; 16 variants) "
                    "and the oracle clause 'a monitor is never told NameAcquired nor announced as an owner'.")
ADD_TEXT["C11"] = ADD_TEXT.get("C11", "") + (" Round 8: the transport suite also cuts inside the BEGIN line itself, at each of its six positions, with a pause.")
ADD_TEXT["C01"] = ADD_TEXT.get("C01", "") + (" Round 8: grammar-corner signatures (dict entries with every kind of key, outside arrays, wrong arity, misnested) as SIGNATURE field, as g "
                    "value and as the type of a variant among the specials.")
ADD_TEXT["C06"] = ADD_TEXT.get("C06", "") + (" Round 8: bus_client_policy_optimize is inside the model (Model/Bus/Policy.lean: PRule.catchAll - the repaired F17 test -, optimizeStep, optimize; "
                    "the rule list a model connection holds is the optimized one, as in the daemon, at Hello and at reload) and it is a theorem that it changes no decision: "
                    "optimize_changes_no_send_decision / _receive_ / _own_ and client_policy_decides_as_full_list, for every rule list, message, request state and peer "
                    "(Proofs/PolicyOpt.lean: a rule the optimizer takes for a catch-all applies to everything of its type - catchAll_send_applies, catchAll_receive_applies -, "
                    "and dropping rules a later always-applying rule overrides leaves the last-match verdict as it was). A change to the optimizer's test in bus/policy.c now shows as a "
                    "disagreement between the daemon and a model whose decisions are proved equal to the documented evaluation.")
ADD_TEXT["C13"] += (" 'Capacity freed by a release or disconnect becomes usable again' as theorems: removed_rule_frees_room (a successful RemoveMatch leaves exactly one rule fewer), "
                    "below_rules_limit_not_refused, answered_call_frees_slot (an answered call no longer counts against its caller), departure_frees_connection (a registered "
                    "connection that leaves makes the count of registered connections one smaller).")
ADD_TEXT["C02"] += (" Round 8: the first clause - 'any message built through the public construction API serialises to bytes that are a valid D-Bus message' - is a theorem about the "
                    "construction steps themselves, no longer only about their result: Model/Build.lean holds what the API calls make of the abstract message (pushTop: a completed top-level "
                    "value goes to the end of the body, its type to the end of the signature, the SIGNATURE field is rewritten; setHdr; applyBuild) - the very functions the driver's "
                    "interpreter of construction programs executes and the check compares byte for byte with the library's writer -, and pushTop_keeps_valid / build_step_keeps_valid / "
                    "build_keeps_valid prove that every step, and every sequence of steps in any order, keeps a well-formed message well-formed under the API's preconditions (AppendOK: the "
                    "value is well-formed where it will stand, the lengthened signature is a signature of at most 255 bytes, the message still fits the limits; EditOK for header calls, "
                    "from C12); built_message_roundtrips: the built message serialises to bytes that parse back to exactly it. How a container value is assembled from open/append/close "
                    "calls stays in the driver's interpreter (tied by the byte comparison), as does dbus_message_new_*'s choice of initial fields.")
for _k, _v in ADD_TEXT.items():
    CHECKS[_k]["text"] = CHECKS[_k]["text"].rstrip() + _v
for _k, _v in NEW_NOTE.items():
    CHECKS[_k]["note"] = _v
