"""Correspondence of the activation layer of the bus model (lean/Dbus/Model/Bus/Activation.lean)
with the real dbus-daemon: histories as in busdiff, plus service directories whose Exec lines start
a stub that the harness controls, and a virtual clock for the start timeout.

Extra ops:
    ("svcexit", tag, how)      the running stub `tag` ends: how = exit status (int) or "segv"
    ("actsleep",)              the clock jumps past service_start_timeout
    ("advance", ms)            the clock jumps by ms: whatever deadline (reply_timeout, service_start_timeout) lies in
                               between has passed, the others have not
    ("sendx", cid, bytes, name)  a send that may start a program whose Exec does not exist: the
                               daemon learns of the exec failure by itself a moment later
The stub appends "start <tag> <pid> <ppid>" to a log when it has started, then blocks on a FIFO
until the harness tells it how to end.  Which connection takes the name is up to the history: any
client may (the daemon does not care which process owns the connection).
"""
import os, re, time, struct, mmap, signal, tempfile, shutil, stat
from .common import *
from . import bus, busdiff, build, script, wiregen

SHIM_SRC = os.path.join(ROOT, "harness", "shim", "clockshim.c")
SHIM = os.path.join(BIN, "clockshim.so")

STUB = """#!/bin/sh
# service stub started by the dbus-daemon under test; controlled by the harness through a FIFO
tag="$1"
ctl="%s"
fifo="$ctl/fifo.$$"
mkfifo "$fifo" || exit 97
echo "start $tag $$ $PPID" >> "$ctl/log"
read how < "$fifo"
case "$how" in
  segv) kill -SEGV $$ ;;
  *) exit "$how" ;;
esac
"""


def ensure_shim():
    with locked("cc-clockshim"):
        if os.path.exists(SHIM) and os.path.getmtime(SHIM) >= os.path.getmtime(SHIM_SRC):
            return SHIM
        os.makedirs(BIN, exist_ok=True)
        p = run(["gcc", "-O1", "-shared", "-fPIC", "-o", SHIM + ".tmp", SHIM_SRC, "-ldl"])
        if p.returncode != 0:
            raise InfraError("clock shim failed to compile: " + p.stderr[-2000:])
        os.replace(SHIM + ".tmp", SHIM)
    return SHIM


class Svc:
    """service directory contents: files = [(filename, bus name, kind, tag)], kind in ok | badquote | nx | shared"""
    def __init__(self, files, start_timeout=25000, pending=None, helper=False):
        self.files, self.start_timeout, self.pending = [tuple(f) for f in files], start_timeout, pending
        # helper: the bus is configured with a <servicehelper>; the service files here carry no User= line, and such a bus refuses to
        # start them (Spawn.FileInvalid) before anything is parsed or started - nothing may stay pending
        self.helper = helper

    def exec_line(self, kind, tag, stub):
        if kind == "ok":
            return "%s %s" % (stub, tag)
        if kind == "shared":
            return "%s %s" % (stub, tag)         # several names carry the same tag, hence the same command line
        if kind == "badquote":
            return "%s '%s" % (stub, tag)
        if kind == "nx":
            return "/nonexistent/verif-%s" % tag
        raise ValueError(kind)

    def to_json(self):
        return {"files": [list(f) for f in self.files], "start_timeout": self.start_timeout, "pending": self.pending, "helper": self.helper}

    @staticmethod
    def from_json(d):
        return Svc(d["files"], d.get("start_timeout", 25000), d.get("pending"), d.get("helper", False))

    def model_lines(self):
        out = []
        for fname, name, kind, tag in self.files:
            ex = self.exec_line(kind, tag, "STUB")
            out.append("act file %s %s %d %d%s" % (name.encode().hex() or "-", ex.encode().hex(), 0 if kind == "badquote" else 1, 0 if kind == "nx" else 1,
                                                   (" " + b"org.freedesktop.DBus.Error.Spawn.FileInvalid".hex()) if self.helper else ""))
        return out

    def tag_of(self, name):
        for fname, n, kind, tag in self.files:
            if n == name:
                return tag, kind
        return None, None


class ActRun(busdiff.ImplRun):
    def __init__(self, policy, limits, svc):
        ensure_shim()
        os.makedirs(bus.RUNROOT, exist_ok=True)
        self.sdir = tempfile.mkdtemp(prefix="svc-", dir=bus.RUNROOT)
        os.chmod(self.sdir, 0o755)
        self.svc = svc
        self.stub = os.path.join(self.sdir, "stub.sh")
        with open(self.stub, "w") as f:
            f.write(STUB % self.sdir)
        os.chmod(self.stub, 0o755)
        d = os.path.join(self.sdir, "services")
        os.makedirs(d)
        for fname, name, kind, tag in svc.files:
            with open(os.path.join(d, fname), "w") as f:
                f.write("[D-BUS Service]\nName=%s\nExec=%s\n" % (name, svc.exec_line(kind, tag, self.stub)))
        self.clock_path = os.path.join(self.sdir, "clock")
        with open(self.clock_path, "wb") as f:
            f.write(struct.pack("<q", 0))
        self.clock_f = open(self.clock_path, "r+b")
        self.clock = mmap.mmap(self.clock_f.fileno(), 8)
        self.now_ms = 0
        lim = dict(limits or {})
        lim["start_timeout"] = svc.start_timeout
        lim["auth_timeout"] = 2000000000      # the clock jumps: connections that never say Hello must not expire on the way
        if svc.pending is not None:
            lim["pending"] = svc.pending
        self.log_seen = 0
        self.stubs = {}          # pid -> (tag, number) of stubs believed alive; programs are numbered in starting order
        self.sitter_of = {}      # stub pid -> pid of the babysitter that started it
        self.nstarted = 0
        self.eof_unreliable = True
        self.info = []           # per step: programs started [(tag, number)], killed [number], ended (number or None)
        super().__init__(policy, lim, '  <servicedir>%s</servicedir>\n' % d + ('  <servicehelper>/nonexistent/verif-helper</servicehelper>\n' if svc.helper else ''),
                         env_extra={"LD_PRELOAD": SHIM, "VERIF_CLOCK_FILE": self.clock_path})

    def stop(self):
        for pid in list(self.stubs):
            try:
                os.kill(pid, signal.SIGKILL)
            except OSError:
                pass
        r = super().stop()
        try:
            self.clock.close(); self.clock_f.close()
        except (OSError, ValueError):
            pass
        shutil.rmtree(self.sdir, ignore_errors=True)
        return r

    def _children(self, ppid):
        out = []
        for e in os.listdir("/proc"):
            if not e.isdigit():
                continue
            try:
                with open("/proc/%s/stat" % e) as f:
                    st = f.read()
                rest = st[st.rindex(")") + 2:].split()
                if int(rest[1]) == ppid and rest[0] != "Z":
                    out.append(int(e))
            except (OSError, ValueError, IndexError):
                pass
        return out

    def _read_log(self):
        try:
            with open(os.path.join(self.sdir, "log")) as f:
                lines = f.read().splitlines()
        except OSError:
            lines = []
        new = [l.split() for l in lines[self.log_seen:] if len(l.split()) == 4]
        self.log_seen += len(new)
        return new

    def _alive(self, pid):
        try:
            with open("/proc/%d/stat" % pid) as f:
                st = f.read()
            return st[st.rindex(")") + 2] != "Z"
        except (OSError, ValueError):
            return False

    def _collect_spawns(self):
        """programs the daemon has started since the last call: a babysitter is forked before the daemon
        answers anything else, so its children are all there by now; wait for each one's stub to report"""
        started = []
        known_parents = getattr(self, "_sitters", set())
        sitters = set(self._children(self.d.proc.pid))
        fresh = sitters - known_parents
        self._sitters = known_parents | sitters
        t0 = time.time()
        waiting = set(fresh)
        while True:
            for rec in self._read_log():
                _, tag, pid, ppid = rec
                self.stubs[int(pid)] = (tag, self.nstarted)
                self.sitter_of[int(pid)] = int(ppid)
                started.append((tag, self.nstarted)); self.nstarted += 1
                waiting.discard(int(ppid))
            # a babysitter that is gone will never report (the exec failed, or its program has already ended); one that
            # is alive is about to fork its program, or the program is about to write its line
            for b in list(waiting):
                if not self._alive(b):
                    waiting.discard(b)
            if not waiting:
                break
            if time.time() - t0 > 5:
                raise InfraError("a started program never reported: babysitters %s" % sorted(waiting))
            time.sleep(0.003)
        for rec in self._read_log():
            _, tag, pid, ppid = rec
            self.stubs[int(pid)] = (tag, self.nstarted)
            self.sitter_of[int(pid)] = int(ppid)
            started.append((tag, self.nstarted)); self.nstarted += 1
        return started

    def _wait_dead(self, pids, timeout=6.0):
        """wait until none of these processes is running any more (a babysitter exits once it has told the daemon what became
        of its program: what it wrote is in the daemon's socket by then, and the next round trip finds it handled)"""
        t0 = time.time()
        while any(self._alive(p) for p in pids) and time.time() - t0 < timeout:
            time.sleep(0.003)

    def _end_stub(self, tag, how):
        """the newest live stub with this tag is told to end; returns its number (None when there is none)"""
        for pid, (t, num) in sorted(self.stubs.items(), key=lambda kv: -kv[1][1]):
            if t == tag and self._alive(pid):
                fifo = os.path.join(self.sdir, "fifo.%d" % pid)
                try:
                    fd = os.open(fifo, os.O_WRONLY | os.O_NONBLOCK)
                    os.write(fd, (str(how) + "\n").encode()); os.close(fd)
                except OSError:
                    # the stub has not opened its end yet: give it a moment
                    time.sleep(0.05)
                    try:
                        fd = os.open(fifo, os.O_WRONLY | os.O_NONBLOCK)
                        os.write(fd, (str(how) + "\n").encode()); os.close(fd)
                    except OSError:
                        continue
                t0 = time.time()
                while self._alive(pid) and time.time() - t0 < 5:
                    time.sleep(0.002)
                self.stubs.pop(pid, None)
                # the babysitter reports to the daemon through a socket pair, then exits
                sitter = self.sitter_of.pop(pid, None)
                if sitter is not None:
                    self._wait_dead([sitter])
                time.sleep(0.01)
                return num
        return None

    def step(self, op):
        before = {pid for pid in self.stubs if self._alive(pid)}
        self.stubs_num = {pid: v[1] for pid, v in self.stubs.items()}
        ended = None
        if op[0] == "svcexit":
            ended = self._end_stub(op[1], op[2])
            inner = ("nop",)
        elif op[0] == "actsleep":
            self.now_ms += self.svc.start_timeout + 1000
            self.clock[:8] = struct.pack("<q", self.now_ms)
            inner = ("nop",)
        elif op[0] == "advance":
            self.now_ms += op[1]
            self.clock[:8] = struct.pack("<q", self.now_ms)
            inner = ("nop",)
        elif op[0] == "sendx":
            inner = ("send", op[1], op[2])
        else:
            inner = op
        got, newly = super().step(inner)
        if op[0] == "sendx":
            # the exec failure reaches the daemon through the babysitter a moment later: the babysitter forked for it (a child of
            # the daemon we have not seen before) reports and exits
            known = getattr(self, "_sitters", set())
            self._wait_dead([p for p in self._children(self.d.proc.pid) if p not in known])
            time.sleep(0.01)
            got2, newly2 = super().step(("nop",))
            for k, v in got2.items():
                got.setdefault(k, []).extend(v)
            newly |= newly2
        started = self._collect_spawns()
        killed = []
        if op[0] in ("actsleep", "advance") and before:
            # programs of activations that timed out are killed by the daemon in its timeout handler; give the kernel time to
            # make that visible: until nothing has changed for 80 ms (at most 3 s)
            t0 = last_change = time.time()
            killed = []
            while time.time() - t0 < 3.0:
                now_killed = sorted(self.stubs[p][1] for p in before if not self._alive(p))
                if now_killed != killed:
                    killed, last_change = now_killed, time.time()
                if len(killed) == len(before) or time.time() - last_change > (0.08 if op[0] == "advance" else 0.25):
                    break
                time.sleep(0.005)
            for p in list(before):
                if not self._alive(p):
                    self.stubs.pop(p, None)
        self.info.append({"started": started, "killed": killed, "ended": ended,
                          "live_before": sorted(self.stubs_num.get(p, -1) for p in before),
                          "alive_after": sorted(self.stubs_num.get(p, self.stubs.get(p, (None, -1))[1]) for p in list(self.stubs) if self._alive(p))})
        return got, newly


# ---------------------------------------------------------------- model side

def op_model_lines(op, svc, info):
    """the model lines one op stands for; `info` is what the harness observed of the started programs at this step
    (which program a `svcexit` ended is an input to the model, like any other choice of the environment)"""
    if op[0] == "connect":
        g = busdiff.gids_of(op[2])
        return ["act connect %d %d %s %d" % (op[1], op[2], ",".join(map(str, g)) or "-", 1 if op[3] else 0)]
    if op[0] == "send":
        return ["act msg %d %s" % (op[1], op[2].hex())]
    if op[0] == "sendx":
        return ["act msg %d %s" % (op[1], op[2].hex()), "act execfailed %s" % op[3].encode().hex()]
    if op[0] == "close":
        return ["act close %d" % op[1]]
    if op[0] == "actsleep":
        return ["act acttimeout-all"]
    if op[0] == "advance":
        return ["act advance %d" % op[1]]
    if op[0] == "svcexit":
        how = op[2]
        err = "0" if how == 0 else (b"org.freedesktop.DBus.Error.Spawn.ChildSignaled" if how == "segv" else b"org.freedesktop.DBus.Error.Spawn.ChildExited").hex()
        if info is None or info.get("ended") is None:
            return ["act nop"]
        return ["act exited %d %s" % (info["ended"], err)]
    raise ValueError(op)


def parse_outs(ans):
    per, closed, spawned, killed = {}, set(), [], []
    if ans.strip() == "-":
        return per, closed, spawned, killed
    for part in ans.split(" | "):
        toks = part.split(" ", 2)
        if toks[0] == "D":
            per.setdefault(int(toks[1]), []).append(busdiff.sort_string_array(busdiff.canon(toks[2])))
        elif toks[0] == "O":
            per.setdefault(int(toks[1]), []).append("OPAQUE rs=" + toks[2])
        elif toks[0] == "C":
            closed.add(int(toks[1]))
        elif toks[0] == "S":
            nm, num = part.split(" ")[1:3]
            spawned.append((bytes.fromhex(nm).decode("latin1"), None if num == "x" else int(num)))
        elif toks[0] == "K":
            nm, num = part.split(" ")[1:3]
            killed.append((bytes.fromhex(nm).decode("latin1"), None if num == "x" else int(num)))
    return per, closed, spawned, killed


def model_run(ops, policy, limits, svc, infos=None):
    limits = dict(limits or {})
    limits.setdefault("maxmsg", 32 * 1024 * 1024)
    if svc.pending is not None:
        limits["pending"] = svc.pending
    head = ["act reset " + " ".join(["%s=%d" % kv for kv in limits.items() if kv[0] not in ("reply_timeout", "pending_fd_timeout", "start_timeout", "auth_timeout")] +
                                    ["starttimeout=%d" % svc.start_timeout] + (["replytimeout=%d" % limits["reply_timeout"]] if limits.get("reply_timeout") else []))]
    head += [l.replace("bus policy", "act policy", 1) for l in policy.to_model()] + svc.model_lines()
    groups = [op_model_lines(op, svc, infos[i] if infos is not None and i < len(infos) else None) for i, op in enumerate(ops)]
    lines = head + [l for g in groups for l in g]
    outs = script.run_model("\n".join(lines) + "\n")[0]
    for o in outs[:len(head)]:
        if o != "ok":
            raise InfraError("model refused setup line: %r" % o)
    body = outs[len(head):]
    res, k = [], 0
    for g in groups:
        per, closed, sp, kl = {}, set(), [], []
        for _ in g:
            p, c, s, kk = parse_outs(body[k]); k += 1
            for cid, ls in p.items():
                per.setdefault(cid, []).extend(ls)
            closed |= c; sp += s; kl += kk
        res.append((per, closed, sp, kl))
    return res


def run_impl(ops, policy, limits, svc):
    run = ActRun(policy, limits, svc)
    steps, died = [], None
    try:
        for op in ops:
            try:
                steps.append(run.step(op))
            except busdiff.DaemonDied as e:
                died = str(e)[-3000:]; break
            except busdiff.DaemonStalled as e:
                died = "STALLED: " + str(e)[-3000:]; break
            except (OSError, InfraError) as e:
                t0 = time.time()
                while run.d.alive() and time.time() - t0 < 20:
                    time.sleep(0.1)
                if run.d.alive():
                    raise
                died = run.d.stderr()[-3000:]; break
        return steps, died, dict(run.unique), list(run.info)
    finally:
        run.stop()


def tags_of(pairs, svc):
    """the model's started/killed programs as the harness sees them: (tag, number); programs that cannot be executed never show"""
    out = []
    for n, num in pairs:
        t, kind = svc.tag_of(n)
        if num is not None:
            out.append((t, num))
    return sorted(out)


def compare(ops, policy, limits, svc, impl=None):
    steps, died, _, infos = impl if impl is not None else run_impl(ops, policy, limits, svc)
    model = model_run(ops, policy, limits, svc, infos)
    isteps = busdiff.dump_steps(steps)
    must_die = set()
    for i, (iper, newly) in enumerate(isteps):
        op = ops[i]
        mper, mclosed, msp, mkl = model[i]
        for cid in sorted(set(iper) | set(mper)):
            a, b = iper.get(cid, []), mper.get(cid, [])
            if len(a) != len(b) or not all(busdiff.opaque_match(y, x) for x, y in zip(a, b)):
                return {"step": i, "op": show_op(op), "kind": "delivery", "conn": cid, "impl": a, "model": b}
        if newly != mclosed:
            return {"step": i, "op": show_op(op), "kind": "closed", "impl": sorted(newly), "model": sorted(mclosed)}
        if sorted(map(tuple, infos[i]["started"])) != tags_of(msp, svc):
            return {"step": i, "op": show_op(op), "kind": "programs-started", "impl": infos[i]["started"], "model": tags_of(msp, svc), "model_names": msp}
        # the daemon kills the program of an activation that times out; one that has already ended is not there to be killed.
        # When a killed program is seen to be gone is up to the kernel's scheduler: at the step itself only programs the model
        # kills may be found dead; that every one of them is gone is checked at the end of the history
        mk = sorted(num for _, num in mkl if num is not None and num in infos[i]["live_before"])
        if not set(infos[i]["killed"]) <= set(mk):
            return {"step": i, "op": show_op(op), "kind": "programs-killed", "impl": infos[i]["killed"], "model": mkl}
        must_die.update((k, i) for k in mk)
    if died is not None:
        return {"step": len(steps), "op": show_op(ops[len(steps)]), "kind": "daemon-died", "stderr": died}
    if infos and "alive_after" in infos[min(len(infos), len(isteps)) - 1]:
        last = infos[min(len(infos), len(isteps)) - 1]
        # (a program killed in the very last steps may still be on its way out: only those killed at least two steps before the end)
        late = sorted((k, i) for k, i in must_die if k in last["alive_after"] and i < len(isteps) - 2)
        if late:
            k, i = late[0]
            return {"step": i, "op": show_op(ops[i]), "kind": "programs-killed", "impl": "program %d still running at the end of the history" % k, "model": "killed at step %d" % i}
    return None


def show_op(op):
    if op[0] == "sendx":
        return "sendx %d %s %s" % (op[1], op[2].hex(), op[3])
    if op[0] == "svcexit":
        return "svcexit %s %s" % (op[1], op[2])
    if op[0] == "actsleep":
        return "actsleep"
    if op[0] == "advance":
        return "advance %d" % op[1]
    return busdiff.show_op(op)


def parse_op(s):
    t = s.split()
    if t[0] == "sendx":
        return ("sendx", int(t[1]), bytes.fromhex(t[2]), t[3])
    if t[0] == "svcexit":
        return ("svcexit", t[1], t[2] if t[2] == "segv" else int(t[2]))
    if t[0] == "actsleep":
        return ("actsleep",)
    if t[0] == "advance":
        return ("advance", int(t[1]))
    return busdiff.parse_op(s)
